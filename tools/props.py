"""Per-property configuration of the check pipeline."""

COMMON_TRUST = [
    "correspondence harness (/verif/harness: generators, canonicalisers) and tools/run_check.py diff",
    "hand-written Lean model tied to the code only through the sampled correspondence streams",
]

PROPS = {
    "C11": {
        "lean_modules": ["QrlewModel.Props.C11"],
        "streams": [
            {"name": "intervals", "n_quick": 4000, "n_thorough": 200000},
            {"name": "dtype", "n_quick": 40000, "n_thorough": 2000000, "compare": False},
        ],
        "rule": "intervals: random operation histories (union/intersection with interval or set, hull) over rank-encoded i64/f64/String bounds, "
                "4 profiles (small grids for touching/nested endpoints, stride profiles forcing >=128 intervals); a case is distinct by its JSON and "
                "non-trivial unless tagged trivial (fewer than 2 ops)",
        "trusted_base": COMMON_TRUST + ["rank encoding: Intervals<B> is order-parametric (uses only <, <=, ==, clone)"],
        "assumptions": ["bounds are totally ordered (no NaN)"],
        "technique": "Lean 4 proof (induction over interval lists and operation histories) + model/implementation correspondence + law oracle",
        "level_text": "Theorems (Props/C11.lean) for all interval lists, bounds, capacities >= 2 and operation histories: representation invariant (sorted, disjoint, < capacity) is preserved and no point of the exact result is ever lost (incl. capacity collapses); exactness below capacity. The model is tied to intervals.rs by running both on generated histories (i64/f64/String) and to the DataType lattice laws by an implementation-side law oracle.",
        "level_note": "Trusted: Lean kernel; propext/Classical.choice/Quot.sound; the correspondence harness; rank encoding of bounds. Modelled, not verified: the Rust index arithmetic is modelled by structural recursion (tied by correspondence only); DataType-level laws are checked by the oracle sweep, see DESIGN.md.",
    },
    "C15": {
        "lean_modules": ["QrlewModel.Props.C15"],
        "streams": [
            {"name": "hier", "n_quick": 40000, "n_thorough": 2000000},
            {"name": "scope", "n_quick": 6000, "n_thorough": 200000, "compare": False},
        ],
        "rule": "hier: random path maps (0-8 entries over a 5-letter alphabet, keys derived from one another so that suffixes are shared/nested, permuted insertion order) x 6 lookups "
                "(exact keys, proper suffixes, longer paths, unrelated); non-trivial = at least 2 entries. scope: generated 2-3 way joins (ON/USING/NATURAL, aliases, self-joins) over tables "
                "with overlapping column names, one reference under test in SELECT/WHERE/GROUP BY/ORDER BY",
        "trusted_base": COMMON_TRUST + ["BTreeMap modelled as an association list with distinct keys (order-independence is theorem lookup_perm)"],
        "assumptions": ["only Hierarchy::get_key_value is modelled; the composition of column hierarchies in sql/relation.rs is checked by the implementation-side oracle only"],
        "technique": "Lean 4 proof (fold = unique-compatible-entry characterisation, order independence) + model/implementation correspondence + SQL-level ambiguity oracle",
        "level_text": "Theorems (Props/C15.lean) for every path map and lookup path: exact key wins; otherwise the single entry agreeing on all shared trailing components, none if several; the result is never one of several candidates and does not depend on entry order. Tied to hierarchy.rs by running Hierarchy::get_key_value and the model on generated maps; the query-level half (ambiguous unqualified columns across joins are refused, USING/NATURAL columns resolve) is an oracle on Relation::try_from.",
        "level_note": "Trusted: Lean kernel; the harness; sqlparser. Modelled, not verified: sql/relation.rs scope composition (oracle only). A panic on an ambiguous reference counts as a refusal for C15 and is reported under C18.",
    },
    "C13": {
        "lean_modules": ["QrlewModel.Props.C13"],
        "translators": [{"module": "tr_rules", "func": "gen_rules"}],
        "streams": [
            {"name": "rules", "n_quick": 3000, "n_thorough": 150000, "min_per_proc": 100},
        ],
        "rule": "rules: generated CTE-chain queries (maps, DP-supported and unsupported reduces, joins, unions; depth 1-3) over protected (users, orders via foreign key) and public (products) tables, "
                "with/without synthetic data, Soft/Hard; compared: rules per node vs generated table, eliminated rule sets, the full list of derivations, chosen derivation and score for both entry points, Ok/Err of the real entry points; "
                "non-trivial = at least 2 consistent derivations",
        "trusted_base": COMMON_TRUST + ["Visitor DAG traversal modelled as tree recursion (generated queries have no shared sub-relations)", "the harness replicates the entry points' filter + max_by on the real selection to observe the chosen derivation"],
        "assumptions": ["rule arities match node arities (the setter never produces a unary rule on a join); an index panic on a wrong arity is not modelled"],
        "technique": "Lean 4 proof generic in the rule table (select∘eliminate = consistent derivations; arg-max optimal) + correspondence of eliminate/select/choose with the real visitors + brute-force labelling oracle",
        "level_text": "Theorems (Props/C13.lean) for every tree and every assignment of candidate rules: selection after elimination enumerates exactly the consistent derivations; elimination keeps exactly the rules that root some consistent derivation; the compiler answers 'unreachable' iff no consistent derivation has an acceptable root; the chosen derivation is consistent, acceptable and score-maximal. Tied to rewriting_rule.rs / rewriting/mod.rs by comparing, on generated queries, the real eliminator/selector/score/entry points with the model, node by node and derivation by derivation.",
        "level_note": "Trusted: Lean kernel; harness; the translator dump of the rule table. Modelled, not verified: parameters of rules (only labels are modelled); shared sub-relations (Arc DAG) are treated as trees.",
    },
    "C02": {
        "lean_modules": ["QrlewModel.Props.C02"],
        "translators": [{"module": "tr_rules", "func": "gen_rules"}],
        "streams": [
            {"name": "rules", "n_quick": 3000, "n_thorough": 150000, "min_per_proc": 100},
            {"name": "c04", "n_quick": 700, "n_thorough": 30000, "compare": False, "min_per_proc": 100},
            {"name": "sdpartial", "n_quick": 400, "n_thorough": 20000, "compare": False, "min_per_proc": 100},
        ],
        "rule": "sdpartial: 8 queries x a synthetic-data mapping that omits one protected table: the DP entry point either refuses or returns a relation that reads no protected table without a noisy aggregation; c04 (executed): DP GROUP BY on a column whose values are public (listed by its type), on databases where some listed value has no row or a single one, noise neutralised: the released keys must be exactly the listed values (a key column computed from the protected rows is an un-noised path); same generated queries as C13; additionally the relation returned by the real rewrite_with_differential_privacy is walked: every path from the root to a protected base table must cross a noise-adding Map lying above a Reduce; "
                "the driver checks that every node of the real rule-annotated tree carries exactly the rules of the regenerated table (table_ok); non-trivial = at least 2 consistent derivations",
        "trusted_base": COMMON_TRUST + ["translator tools/tr_rules.py + harness `dump rules` (probe nodes per kind/config)", "the lineage audit recognises noise by the presence of `random` in a Map's expressions"],
        "assumptions": ["that a node rewritten by the DP-reduce arm is differentially private is the subject of C01/C03/C04, not of C02"],
        "technique": "Lean 4 proof generic in the rule table (LocalSafe => no exposed protected leaf under a non-raw root) + `decide` on the table regenerated from the real setter + lineage audit of the rewritten relation",
        "level_text": "Theorem no_unnoised_path (Props/C02.lean): for any rule table satisfying the decidable local condition LocalSafe, any tree and any consistent derivation whose root is public/published/DP/synthetic, every protected table is replaced by synthetic data or lies below a DP aggregation; generated_local_safe discharges LocalSafe by `decide` for the table regenerated from /repo on every run (4 configurations). The real compiler's output is audited structurally on generated queries.",
        "level_note": "Trusted: Lean kernel; translator; harness. Modelled, not verified: the Rewriter's match arms are covered only by the lineage audit of its output (a pass-through of a PUP->DP reduce shows up as a missing noise Map).",
    },
    "C03": {
        "lean_modules": ["QrlewModel.Props.C03"],
        "streams": [
            {"name": "dpevent", "n_quick": 20000, "n_thorough": 1000000},
            {"name": "dpquery", "n_quick": 4000, "n_thorough": 200000, "min_per_proc": 100},
        ],
        "rule": "dpevent: random lists of (nested) events with zero and non-zero multipliers folded by compose; non-trivial = at least two non-no-op mechanisms. "
                "dpquery: generated single-reduce aggregation queries (1-4 aggregates among sum/avg/count/variance/stddev and DISTINCT variants, ungrouped / public-valued keys / private-valued keys needing tau-thresholding, "
                "joins along the privacy-unit path, WHERE) x DpParameters grid (eps in {0.1..10}, delta in {0.05..1e-8}, share, multiplicity, max groups); σ, C, τ literals are read off the rewritten IR; non-trivial = at least 2 noise sites or a threshold",
        "trusted_base": COMMON_TRUST + ["Mathlib Real.sqrt/Real.log", "IR extraction of σ, C, τ (harness/src/ir.rs)", "statrs inverse normal CDF (used through the library's own gaussian_tau in the τ oracle)"],
        "assumptions": ["classical Gaussian calibration (Dwork-Roth Thm A.1, valid for ε<1) and basic composition are the property's own premises, not proved", "IEEE rounding is not modelled: σ compared with relative tolerance 1e-9"],
        "technique": "Lean 4 proof (event composition keeps all mechanisms; recorded multiplier <= applied multiplier over ℝ; budget split sums) + Float instance of the same definitions compared with σ/C/event extracted from the real rewritten IR + independent budget oracle",
        "level_text": "Theorems (Props/C03.lean): composition/collection of events records exactly the non-no-op mechanisms in order (any nesting); over ℝ, for every n≥1, ε,δ>0 the recorded multiplier m(ε,δ) is ≤ the applied multiplier m(ε/n,δ/n) = σ/C; the even split of (ε,δ) over sums and between thresholding and aggregates adds up to the budget. The same budget definitions, instantiated on Float, reproduce the σ literals, the Gaussian entries and the EpsilonDelta entry of the real rewriting on generated queries; an implementation-side oracle re-derives the implied ε from σ/C and checks basic composition and the thresholding record.",
        "level_note": "Trusted: Lean kernel, Mathlib analysis; harness IR extraction. Not proved: that the classical calibration gives (ε,δ)-DP. Queries whose aggregates share a sum are budgeted conservatively by the code and are only checked by the oracle, not compared with the model.",
    },
    "C06": {
        "lean_modules": ["QrlewModel.Props.C06", "QrlewModel.Props.C06Expr"],
        "streams": [
            {"name": "fnimg", "n_quick": 20000, "n_thorough": 1000000},
            {"name": "fn", "n_quick": 120000, "n_thorough": 4000000, "compare": False, "min_per_proc": 2000},
        ],
        "rule": "fnimg: integer +, -, *, sum on generated interval sets (1-3 intervals, small values and i64 extremes) compared with the Lean corner model. "
                "fn: every scalar function (86 symbols, cycled evenly), 18 aggregates over list types, and numeric expression trees (depth 1-3; 2-5 in thorough): "
                "draw argument types (category-directed: numeric/int/bool/text/date-time/any, optional wrappers, value sets, multi-interval sets, extremes), draw a value in them (boundary-heavy), "
                "evaluate, require the propagated range to exist and contain the result (floats: relative tolerance 1e-9); non-trivial = the value evaluated without error",
        "trusted_base": COMMON_TRUST + ["membership modulo the library's embeddings (harness s_dtype::mem)", "IEEE rounding not modelled (tolerance 1e-9 on float results)"],
        "assumptions": ["floats: only exact-arithmetic (integer) instances are proved; float/text/date functions are covered by the implementation-side oracle only", "chrono is an oracle for calendar functions", "float results are tested for membership with a relative tolerance of 1e-9: a value that leaves its propagated range by a few ulps (e.g. std of {min, max} against (max-min)/sqrt 2) is attributed to IEEE rounding, which the model does not cover, and is not reported"],
        "technique": "Lean 4 proof (corner theorems for partitioned-monotone functions of arity 1 and 2 incl. capacity collapse; saturating integer +,-,*; integer sum) + model/implementation image correspondence + exhaustive-by-symbol soundness oracle on the implementation",
        "level_text": "Theorems (Props/C06.lean): for any function that is monotone or antitone in each coordinate on each (convex) partition, any argument sets and any point in them, the value lies in the propagated range (hull of corner values per box, collected into an interval set of any capacity >= 2); instances: i64 saturating +, -, * with the partitions declared in function.rs; integer sum bounds; a kernel-checked counterexample for sum over a union of intervals. The model images equal the real super_image on generated sets; all ~100 functions/aggregates and expression trees are swept by the value-in-image oracle on the real code.",
        "level_note": "Trusted: Lean kernel; harness. Modelled, not verified: float arithmetic (clamp, rounding), transcendental functions, text and calendar functions, Optional/Polymorphic/Case wrappers (oracle only).",
    },
    "C10": {
        "lean_modules": ["QrlewModel.Props.C10"],
        "streams": [
            {"name": "filter", "n_quick": 40000, "n_thorough": 2000000},
            {"name": "filterx", "n_quick": 60000, "n_thorough": 3000000, "compare": False},
        ],
        "rule": "filter: 1-3 integer columns (1-3 intervals each) x predicates of depth 1-3 (comparisons col/lit on either side and col/col, =, AND, OR, unsupported NOT NOT wrapper) x 6 rows drawn from the type; "
                "filterx: columns of int/float/text/bool/date kinds incl. nullable, literals of mixed numeric kinds, IN lists, boolean columns as predicates, unsupported arithmetic shapes, 8 rows; non-trivial = the predicate narrowed the type",
        "trusted_base": COMMON_TRUST + ["membership modulo the library's Integer->Float embedding (harness s_dtype::mem)", "Expr::value as the truth of the predicate on a row"],
        "assumptions": ["strict and non-strict comparisons are narrowed identically by the code; the model uses the weaker (non-strict) reading", "only integer-column row types are modelled in Lean; other kinds are covered by the row oracle"],
        "technique": "Lean 4 proof by induction on predicates (composition of the C11 lattice theorems and the C06 corner theorem) + model/implementation correspondence of DataType::filter + row-level oracle",
        "level_text": "Theorem filter_sound (Props/C10.lean): for every row type with integer interval-set columns, every predicate (comparisons with columns/literals on either side, equalities, AND, OR, unsupported sub-terms; any nesting) and every row of the type on which the predicate holds, the row is in the narrowed type. The model's narrowed types equal those of the real DataType::filter on generated cases; a row oracle checks mixed-kind, nullable and IN-list predicates on the real code.",
        "level_note": "Trusted: Lean kernel; harness. Modelled, not verified: float/text/date columns, optional stripping, IN lists, join ON narrowing per join kind (row oracle only).",
    },
    "C12": {
        "lean_modules": ["QrlewModel.Props.C12"],
        "streams": [
            {"name": "ofint", "n_quick": 100000, "n_thorough": 5000000},
            {"name": "inj", "n_quick": 60000, "n_thorough": 3000000, "compare": False},
            {"name": "injbase", "n_quick": 60000, "n_thorough": 3000000, "compare": False},
        ],
        "rule": "ofint: i64 values (small, near powers of two 2^50..2^62 +- 4100, extremes, random 63-bit, half-way cases) -> `n as f64` vs the Lean ties-to-even model; non-trivial = |n| >= 2^53. "
                "inj: source types (all scalar variants, optional, struct, list) x 9 target variants x two member values (neighbouring integers, sign-flipped floats): image membership, totality, value preservation, injectivity, round trip; non-trivial = the conversion is accepted",
        "trusted_base": COMMON_TRUST + ["Rust `as` casts as the reference for i64<->f64"],
        "assumptions": ["float -> text printing (Rust shortest representation) is trusted to be injective", "only the numeric conversions (bool/int/float) are modelled in Lean"],
        "technique": "Lean 4 proof (endpoint-image theorem for monotone value maps, exactness of i64->f64 below 2^53, kernel-checked counterexamples beyond) + bit-exact correspondence of the rounding model + conversion oracle on the implementation",
        "level_text": "Theorems (Props/C12.lean): mapping and re-ordering interval endpoints by any monotone or antitone value map covers the image of every member (any capacity); bool<->int round-trips and refuses other integers; `i64 as f64` (modelled bit-exactly, ties to even) is the identity below 2^53, hence Integer->Float is injective there; kernel-checked negations beyond (2^53 and 2^53+1 collide; float 2^63 converts to i64::MAX). The rounding model agrees with Rust on generated i64 values; all accepted conversions are swept by the oracle.",
        "level_note": "Trusted: Lean kernel; harness. Modelled, not verified: text/bytes/date conversions and composite liftings (oracle only).",
    },
    "C01": {
        "lean_modules": ["QrlewModel.Props.C01", "QrlewModel.Props.C01Agg"],
        "streams": [
            {"name": "clip", "n_quick": 3000, "n_thorough": 150000, "min_per_proc": 100},
            {"name": "c01", "n_quick": 1500, "n_thorough": 60000, "compare": False, "min_per_proc": 50},
            {"name": "dpagg", "n_quick": 1500, "n_thorough": 60000, "compare": True, "min_per_proc": 100},
        ],
        "rule": "clip: generated tracked tables (1-6 units, 1-4 groups, 0-30 rows, NULL values, C in {0, 1, 2.5, 10, 1000}) -> the real l2_clipped_sums relation rendered and executed on SQLite vs the Lean clipping model on Float; every unit removed in turn. "
                "c01: generated aggregation queries (users / orders via foreign key / join; ungrouped or public-valued keys; WHERE) x DpParameters (max multiplicity 1, 2, 100; share 1, 0.01) x databases where units exceed the multiplicity assumption (up to 40 rows per unit): "
                "the noise-adding Map of the real DP relation is executed with noise neutralised on D and on D minus one unit, L2 distance per noised column vs the C read from the IR; non-trivial = the removed unit contributes",
        "trusted_base": COMMON_TRUST + ["SQLite 3.40 as executor of the rendered relation (+ harness shims: MD5, FIRST/LAST, GREATEST/LEAST, MEAN/VAR/STD, RANDOM override, VALUES column lists)", "Mathlib Real.sqrt", "IR extraction of σ and C (harness/src/ir.rs)"],
        "assumptions": ["keys are public-valued or absent in the execution oracle (with thresholded keys the set of released groups itself depends on the unit; that is C04)", "float rounding in norm/scale is not modelled"],
        "technique": "Lean 4 proof over ℝ (clipped contribution ≤ C, locality of contributions, sensitivity under removal of a unit) + Float instance of the same definitions compared with the real clipping relation executed on SQLite + neighbouring-database execution oracle",
        "level_text": "Theorem C01Agg.dp_sensitivity (Props/C01Agg.lean), on the model of the whole aggregation pipeline that the dpagg stream compares with the real rewriting (clipping constants included: multiplicity, A·multiplicity, ≥ A²·multiplicity): for any table (any number of rows per unit, NULLs, any group layout, values of any size) deleting all rows of one privacy unit moves the vector of clipped sums of each derived column by at most its clipping constant in Euclidean norm. Theorems (Props/C01.lean), for any number of groups, units and rows per unit: the clipped vector of a unit has L2 norm ≤ C; the released vector is the sum of the units' clipped vectors (a unit's contribution depends only on its own rows); removing one unit changes the released vector by ≤ C in L2 norm. The same definitions on Float reproduce the real l2_clipped_sums relation executed on SQLite; the real DP rewriting is executed on neighbouring databases and the observed L2 change of every noised column is compared with the C its σ was scaled by.",
        "level_note": "Trusted: Lean kernel, Mathlib; SQLite; harness shims and IR extraction. Modelled, not verified: the SQL engine's evaluation of the rendered pipeline, NULL-unit rows, float rounding.",
    },
    "C08": {
        "lean_modules": ["QrlewModel.Props.C08", "QrlewModel.Props.C08Split"],
        "streams": [
            {"name": "quote", "n_quick": 20000, "n_thorough": 1000000, "compare": True, "min_per_proc": 2000},
            {"name": "c08x", "n_quick": 3000, "n_thorough": 100000, "compare": False, "min_per_proc": 500},
            {"name": "sqlx", "n_quick": 20000, "n_thorough": 1500000, "compare": False, "min_per_proc": 500},
            {"name": "split", "n_quick": 10000, "n_thorough": 1000000, "compare": True, "min_per_proc": 2000},
        ],
        "rule": "split: select items of depth 1..3 built from sum / count / min / max of row-level expressions (columns c0..c2, literals, abs, opposite, + - *) combined by abs, opposite, + - *, a quarter of them repeating one aggregate: the layers produced by the real expr::split::Split (names resolved to the content they stand for) compared with the Lean model, and recombined into one expression that must equal the item; quote: strings of length 0..6 over {a, b, space, ', \", \\, `, [, ], é, %, .} (plus mostly-letter strings with one or two special characters) x {literal, identifier, output column of a Map} x {PostgreSQL, SQLite, MySQL, MS SQL, BigQuery translators}: rendered text compared with the Lean model of the escaping, and read back with the library's parser; c08x: 42 query templates covering the constructs the property lists (literals and identifiers with special characters, GROUP BY alias / expression, ORDER BY positions / aliases, LIMIT/OFFSET, wildcard, USING/NATURAL/chains of joins, IN, DISTINCT, HAVING, CTE, derived tables, set operations with ORDER BY/LIMIT, casts, unary operators) x generated database instances; sqlx: generated queries (see C14) — original text and rendered relation both executed on SQLite: same multiset of rows, same order when the query has a total ORDER BY, same column names; non-trivial = compiled and executed",
        "trusted_base": COMMON_TRUST + ["SQLite 3.40 + harness shims as executor", "sqlparser's tokenizer as the reader of rendered literals (modelled by unesc)"],
        "assumptions": ["ORDER BY comparisons are made only for queries whose ORDER BY is total on the result (generated that way)", "SQLite semantics stand for 'executing the query' (integer division, text comparison and NULL ordering are SQLite's)"],
        "technique": "Lean 4 proof that the Map / Reduce / Map split of a select item keeps its value for every item, group of rows and naming injective on the item's columns (with kernel-checked counterexamples for colliding names and duplicate unnamed items) + Lean 4 proof of the text layer (for every string without a backslash-quote or doubled quote, reading back what the renderer writes returns the string, for any quote character; kernel-checked counterexamples for the two excluded shapes) + model/implementation correspondence on rendered literals and identifiers + differential execution (original SQL vs rendered relation on SQLite)",
        "level_text": "Theorems (Props/C08.lean) for strings of any length: unesc (esc s) = some s under the decidable guard Clean, for literals and for identifiers in any doubling quote style; bracket quoting round-trips exactly the names without ']'. The model of the escaping routine is compared with the text the five translators actually write. split_preserves (Props/C08Split.lean) covers the split of mixed aggregate expressions, and the model of the split is compared with the layers the real Split produces. Name resolution, GROUP BY keys inside items and join-column coalescing are decided by differential execution only: original and rendered SQL run side by side on SQLite over generated queries and data.",
        "level_note": "Trusted: Lean kernel; SQLite and shims. Modelled, not verified: the AST visitor (name resolution, joins, set operations) is not modelled in Lean; for it the check is a differential test, not a theorem. The split theorem assumes names injective on one item (the 4-character base-37 names can collide: C16.code_collision).",
    },
    "C09": {
        "lean_modules": ["QrlewModel.Props.C09", "QrlewModel.Props.C09Agg"],
        "streams": [
            {"name": "c09", "n_quick": 1500, "n_thorough": 60000, "compare": False, "min_per_proc": 50},
            {"name": "dpagg", "n_quick": 2500, "n_thorough": 100000, "compare": True, "min_per_proc": 100},
        ],
        "rule": "c09: generated aggregation queries (count/sum/avg/variance/stddev, count distinct; users, orders via foreign key, join; WHERE; ungrouped or grouped by the public-valued key) x in-range databases (3-40 users, 0-4 orders each) x (ε, δ); "
                "RANDOM() ≡ 0.25 (every Box–Muller draw is 0), multiplicity bound far above any unit's rows; original vs DP results compared group by group; non-trivial = the original result is non-empty. "
                "dpagg (model ≡ implementation): tables t(pu, g public, x optional float/integer with a one- or two-sided range, y optional float in [0, 3A] with its own NULL pattern; one or both aggregated) of 0-27 rows, 1-6 units, 1-3 groups, multiplicity 1/2/3/50: the real DP rewriting of count/sum/avg/variance/stddev GROUP BY g "
                "executed on SQLite with RANDOM() ≡ 1 (ln 1 = 0: noise exactly 0) against Qrlew.DpAgg.release on Float with the clipping constants read off the relation (checked to be multiplicity, A·multiplicity, ≥ A²·multiplicity); clipping is active in about 60% of the cases",
        "trusted_base": COMMON_TRUST + ["SQLite 3.40 + harness shims as executor", "Mathlib reals"],
        "assumptions": ["NULL (SQL, empty input / single row for var) vs 0 (DP expression) is accepted within 1e-3", "variance/stddev: population or sample value accepted", "extra groups in the DP result must be empty public groups"],
        "technique": "Lean 4 proof over ℝ (no rescaling within the bound ⇒ clipped sums = sums; mean and variance recombination identities) + differential execution of original vs DP relation on SQLite with noise and clipping neutralised",
        "level_text": "Theorems (Props/C09Agg.lean, whole pipeline): for any table with values in [-A, A] and at most m rows per privacy unit and clipping constants ≥ m, A·m, A²·m, the released table (model DpAgg.release, compared line by line with the real rewriting) holds the true count, sum, mean, variance and standard deviation of every group (release_exact, release_true_stats; unitVec_normSq_le: such a unit is never rescaled; count_clipped_counterexample: the multiplicity hypothesis cannot be dropped). Theorems (Props/C09.lean): a unit within the clipping bound is not rescaled and the clipped sums of any database of such units are the plain sums; sum/greatest(1,count) is the mean of a non-empty group; E[x²] − E[x]² is the variance of the data (with a kernel-checked counterexample for the pre-repair formula E[x²] − E[x]). The real DP rewriting is executed on SQLite with noise neutralised and compared with the original query on generated databases.",
        "level_note": "Trusted: Lean kernel, Mathlib; SQLite and shims. Modelled, not verified: DISTINCT splitting and re-join, public-key left join (execution oracle only).",
    },
    "C05": {
        "lean_modules": ["QrlewModel.Props.C05", "QrlewModel.Props.C05Tree"],
        "streams": [
            {"name": "c05", "n_quick": 2500, "n_thorough": 100000, "compare": False, "min_per_proc": 50},
            {"name": "pup", "n_quick": 3000, "n_thorough": 120000, "compare": True, "min_per_proc": 100},
        ],
        "rule": "c05: 12 query shapes (maps with filters, joins of two tracked relations along the foreign key, joins with the public table on either side, INNER/LEFT/RIGHT/FULL, per-unit and public-key reduces, UNION, ORDER BY/LIMIT, CTE with per-unit aggregate, self-join) x both strategies x databases of 2-12 units: "
                "the real privacy-unit-preserving relation is executed on D and on D with all other units' protected rows deleted; the unit's rows are compared as multisets; NULL unit ids / weights reported; non-trivial = the unit has rows. "
                "pup (model ≡ implementation): random operator trees of depth ≤ 3 (map, filter, join of two tracked inputs, inner / left join with a public table, UNION / UNION ALL, GROUP BY with sum or count) over two protected tables ta, tb (0-8 rows, 4 units, NULLs) and a public table pp, under four privacy-unit definitions (own column hashed / not hashed, own column with a weight column, and a third table tc protected through a nullable foreign key to ta's row id, with NULL and dangling references in the data), "
                "written as a chain of CTEs: the real rewrite_as_privacy_unit_preserving (strategy Hard) executed on SQLite, the bag of (unit, weight, c0, c1) compared with Qrlew.PupTree.eval; cases in which the rewriting chose a DP sub-relation are skipped; non-trivial = the result is non-empty",
        "trusted_base": COMMON_TRUST + ["SQLite 3.40 + harness shims as executor", "md5 replaced by an injective text function"],
        "assumptions": ["the model covers operators on bags of (unit, weight, row) over nullable integers; foreign-key path joins, hashing of the unit id, expressions other than column + constant and comparisons other than > are exercised by the execution oracle only"],
        "technique": "Lean 4 proof (restriction to a unit commutes with every tracked operator: map, filter, union, join of tracked relations with unit equality, inner/left join with a published relation, per-unit reduce; kernel-checked counterexamples for LIMIT and outer joins preserving the untracked side) + execution oracle on the real rewriting",
        "level_text": "Theorem restrict_eval (Props/C05Tree.lean): for EVERY tree of tracked operators (any shape and depth; map, filter, tracked-tracked join, inner/left join with a public table, UNION [ALL], per-unit reduce), every database and every unit u, the output rows attributed to u equal the output on the database with all other units' protected rows deleted (corollary eval_depends_on_own_unit); the tree evaluator is the model compared line by line with the real rewriting by the pup stream. Theorems (Props/C05.lean) for bags of any size and any row functions/predicates: the rows attributed to a unit by map, filter, union, tracked-tracked join (unit equality), inner and left join with a published relation, and per-unit reduce are exactly those obtained from the inputs restricted to that unit; counterexamples for a kept LIMIT and for outer joins preserving the published side (NULL unit). The real rewriting is executed on SQLite on D and on D restricted to one unit and the unit's rows compared.",
        "level_note": "Trusted: Lean kernel; SQLite and shims. Modelled, not verified: the IR-to-IR transformers themselves (table path joins, renaming) are observed through execution only.",
    },
    "C04": {
        "lean_modules": ["QrlewModel.Props.C04", "QrlewModel.Props.C04Keys"],
        "streams": [
            {"name": "limit", "n_quick": 3000, "n_thorough": 150000, "min_per_proc": 100},
            {"name": "taukeys", "n_quick": 3000, "n_thorough": 120000, "compare": True, "min_per_proc": 100},
            {"name": "c04", "n_quick": 1200, "n_thorough": 50000, "compare": False, "min_per_proc": 50},
        ],
        "rule": "taukeys (model ≡ implementation): tables v(uid, key, amt) with 1-13 units, common and rare keys, units spread over up to 6 keys; DP GROUP BY key (with sum / count, without aggregate, DISTINCT) x (ε, δ, share, max groups 1/2/3/6), hashed or plain unit: the real rewriting executed on SQLite with RANDOM() ≡ 1 (all contribution ranks tie, count noise exactly 0); the released key set compared with Qrlew.TauKeys.releasedKeys using the threshold read off the relation (τ between 1 and 15); on the implementation itself: a released key is held by more than τ units. limit: (unit, key) tables (1-5 units x 1-8 keys, 2/3 density), K in 1..4: the real limit_col_contributions relation executed on SQLite with a seeded RANDOM() and with constant draws (all ranks tie); per-unit row counts ≤ K, and under ties compared with the Lean rank-filter model; non-trivial = some unit had more than K groups. "
                "c04: grouped queries on private-valued keys (and public+private key pairs, filters, joins) x DpParameters (ε, δ, share, max groups) x databases of 5-600 units: τ and the count noise read off the IR vs an independent computation (Acklam normal quantile), and execution with noise neutralised: a released key must be held by more than τ units",
        "trusted_base": COMMON_TRUST + ["SQLite 3.40 + harness shims as executor", "Acklam's approximation of the normal quantile (relative error 1e-9) as independent reference for τ", "Mathlib reals"],
        "assumptions": ["the rank filter is sound only if the SQL engine evaluates RANDOM() once per row of the relation that both sides of the self-join read; this is observed on SQLite only and cannot be exhibited by the model", "Φ⁻¹ is monotone with Φ⁻¹(1/2) = 0 (so the quantile factor is ≥ 0 for (1-δ)^(1/K) ≥ 1/2)"],
        "technique": "Lean 4 proof (a unit keeps at most K groups for every rank assignment; τ ≥ 1; singleton keys never released with non-positive noise) + execution of the real limiting / thresholding relations on SQLite + independent recomputation of τ",
        "level_text": "Theorems (Props/C04Keys.lean) on the model of the whole key-release pipeline (distinct (key, unit) pairs, contribution limiting, noisy count, threshold) that the taukeys stream compares with the real rewriting: for every table, rank assignment, noise draw, K and τ, a released key is held by a number of distinct units that together with the noise exceeds τ (released_needs_units), no unit is left in more than K groups (limited_per_unit), and a key held by a single unit is not released when the draw is ≤ 0 and τ ≥ 1 (singleton_never_released). Theorems (Props/C04.lean): for any list of random ranks (ties allowed) the rank filter keeps at most K rows of a unit; τ = 1 + σ·q ≥ 1 for σ, q ≥ 0; a key with distinct-unit count 1 is not released when the noise draw is ≤ 0. The real limit_col_contributions and tau-thresholding relations are executed on SQLite (seeded and constant draws); τ and σ in the rewritten query are compared with an independent computation from (ε·share, δ·share, K).",
        "level_note": "Trusted: Lean kernel; SQLite; harness. Named runtime behaviour the model cannot exhibit: per-reference re-evaluation of RANDOM() by an SQL engine.",
    },
    "C07": {
        "lean_modules": ["QrlewModel.Props.C07", "QrlewModel.Props.C07Tree"],
        "streams": [
            {"name": "sizes", "n_quick": 6000, "n_thorough": 200000},
            {"name": "reltree", "n_quick": 4000, "n_thorough": 150000, "compare": True, "min_per_proc": 200},
            {"name": "sqlx", "n_quick": 30000, "n_thorough": 1500000, "compare": False, "min_per_proc": 500},
        ],
        "rule": "reltree (model ≡ implementation): random trees of depth ≤ 3 (map with projections through -x / abs / x + k, WHERE, LIMIT / OFFSET; inner join on a key equality; UNION [ALL], INTERSECT, EXCEPT; GROUP BY one or two keys with count(*)) over three tables with declared sizes and UNIQUE columns, written as a chain of CTEs and compiled by the real reader: the declared size bound and UNIQUE flags of the result are compared with Qrlew.RelTree.sizeMax / uniq, the rows SQLite returns for the rendered relation with Qrlew.RelTree.eval (rows are not compared under LIMIT / OFFSET); on the implementation itself: row count ≤ declared size, flagged columns duplicate-free. sizes: Map (offset/limit), Join (4 kinds x unique flags) and Set (3 operators) nodes built through the builders over tables of size 0..1000: declared size vs the Lean size model. " + "sqlx: generated queries of the supported fragment over t1(a PK, b, c, d, e nullable), t2(a, f, g), t3(k unique, h, w unique float): projections with scalar expressions (arithmetic, abs, CASE, greatest, coalesce, upper), WHERE (comparisons, IN, AND/OR, text equality), DISTINCT, total ORDER BY with LIMIT/OFFSET, aggregations (sum/count/avg/min/max/count distinct, mixed aggregate-scalar items) grouped by column / expression, HAVING, INNER/LEFT/RIGHT/FULL joins ON (also disjunctions of equalities), USING, NATURAL, derived tables, CTEs, diamonds (one sub-query on both sides of a join or set operation, single- and multi-stage), UNION/UNION ALL/INTERSECT/EXCEPT, functions of unique columns, aliases that shadow input columns in GROUP BY / ORDER BY / WHERE / HAVING, shadowed table names, multi-branch CASE with overlapping conditions, the math and text functions the reader declares (sqrt, exp, ln, log2, log10, sin, cos, tan, round, trunc, sign, pow, lower, substr, ltrim, rtrim, ||, char_length, concat with 1..4 arguments), BETWEEN / LIKE / IS NULL / NOT predicates, projections of random() and of functions of it (executed with a seeded stream of distinct draws, not compared with the original); x conforming database instances (empty tables, boundary values, NULLs, duplicate and unmatched join keys, unique keys distinct); the relation rendered by the library is executed on SQLite next to the original text; non-trivial = non-empty result",
        "trusted_base": COMMON_TRUST + ["SQLite 3.40 + harness shims as executor of the rendered relation"],
        "assumptions": ["SQLite semantics (type affinity, integer division, NULL ordering) only where the generated fragment exercises them", "column types are checked by execution only; the Lean part covers row counts"],
        "technique": "Lean 4 proof (size lemmas for filter/offset/limit, set operations, inner joins with product and unique-key bounds; kernel-checked counterexample for outer joins) + correspondence of declared sizes with the model + execution oracle (cells in declared types, row counts in declared sizes)",
        "level_text": "Theorem C07Tree.sound / size_sound (Props/C07Tree.lean): for EVERY tree of tables, maps (projection, WHERE, OFFSET, LIMIT), inner joins on a key equality, UNION [ALL], INTERSECT, EXCEPT and GROUP BY … count(*), and every database whose tables respect their declared sizes and UNIQUE columns, the result has at most sizeMax rows — sizeMax being the function compared line by line with the size the real compiler declares (stream reltree). Theorems (Props/C07.lean) for bags of any size: |LIMIT l OFFSET o of a filtered bag| ≤ min(l, max − o); UNION/INTERSECT/EXCEPT bounds; inner join ≤ |L|·|R| and ≤ max(|L|,|R|) when a join key is unique; left outer join ≤ |L|·|R| + |L| with a counterexample to the bound the code declares. Declared sizes of builder-made nodes equal the model's; generated queries are executed on SQLite and every cell / row count is checked against the declared schema / size.",
        "level_note": "Trusted: Lean kernel; SQLite and shims. Modelled, not verified: column type propagation through relations (execution oracle; the expression-level part is C06/C10).",
    },
    "C14": {
        "lean_modules": ["QrlewModel.Props.C14", "QrlewModel.Props.C07Tree"],
        "streams": [
            {"name": "sqlx", "n_quick": 30000, "n_thorough": 1500000, "compare": False, "min_per_proc": 500},
            {"name": "values", "n_quick": 6000, "n_thorough": 300000, "compare": True, "min_per_proc": 1000},
            {"name": "reltree", "n_quick": 4000, "n_thorough": 150000, "compare": True, "min_per_proc": 200},
        ],
        "rule": "reltree (model ≡ implementation): random trees of depth ≤ 3 (map with projections through -x / abs / x + k, WHERE, LIMIT / OFFSET; inner join on a key equality; UNION [ALL], INTERSECT, EXCEPT; GROUP BY one or two keys with count(*)) over three tables with declared sizes and UNIQUE columns, written as a chain of CTEs and compiled by the real reader: the declared size bound and UNIQUE flags of the result are compared with Qrlew.RelTree.sizeMax / uniq, the rows SQLite returns for the rendered relation with Qrlew.RelTree.eval (rows are not compared under LIMIT / OFFSET); on the implementation itself: row count ≤ declared size, flagged columns duplicate-free. values: literal value lists (1..6 integers / texts / floats drawn from pools of 1..7 values, so repeated values are adjacent in some lists and apart in others) built with the Values builder, alone and inner-joined to t3 on its unique key: declared-unique flag compared with the Lean model valuesUnique, executed rows checked against the declared constraints; sqlx: generated queries of the supported fragment over t1(a PK, b, c, d, e nullable), t2(a, f, g), t3(k unique, h, w unique float): projections with scalar expressions (arithmetic, abs, CASE, greatest, coalesce, upper), WHERE (comparisons, IN, AND/OR, text equality), DISTINCT, total ORDER BY with LIMIT/OFFSET, aggregations (sum/count/avg/min/max/count distinct, mixed aggregate-scalar items) grouped by column / expression, HAVING, INNER/LEFT/RIGHT/FULL joins ON, USING, NATURAL, derived tables, CTEs, UNION/UNION ALL/INTERSECT/EXCEPT, functions of unique columns; x conforming database instances (empty tables, boundary values, NULLs, duplicate and unmatched join keys, unique keys distinct); the relation rendered by the library is executed on SQLite next to the original text; non-trivial = non-empty result",
        "trusted_base": COMMON_TRUST + ["SQLite 3.40 + harness shims as executor"],
        "assumptions": ["base tables honour their declared unique / primary-key constraints (generated that way)"],
        "technique": "Lean 4 proof (uniqueness is preserved by functions injective on the values, by filters, and by inner joins whose other side has a unique key; kernel-checked counterexample for lossy casts; a literal list is flagged unique iff it has no repeated value) + execution oracle on columns declared unique",
        "level_text": "Theorem C07Tree.unique_sound (Props/C07Tree.lean): for EVERY tree of tables, maps, inner joins, set operations and reduces and every conforming database, each output column the model flags UNIQUE holds pairwise distinct values — the flags (through listed bijections only; left columns of a join when the right key is unique and vice versa; none through set operations; a grouping key when it is the only key or unique in the input) being compared line by line with the constraints the real compiler declares (stream reltree). Theorems (Props/C14.lean) for bags of any size: a column stays duplicate-free under projection through any function injective on its values, under filters, and on the left side of an inner join whose right join key is unique; ⌊1.2⌋ = ⌊1.4⌋ shows a lossy cast is not such a function. Generated queries (incl. functions of unique columns, group-by keys, joins) are executed on SQLite and every column the relation declares unique is checked for duplicates.",
        "level_note": "Trusted: Lean kernel; SQLite and shims. Modelled, not verified: which functions the code lists as bijections is observed through execution (no translator for that list).",
    },
    "C16": {
        "lean_modules": ["QrlewModel.Props.C16"],
        "translators": [{"module": "tr_namer", "func": "gen_sites"}],
        "streams": [
            {"name": "determ", "n_quick": 4000, "n_thorough": 300000, "compare": False, "min_per_proc": 500},
            {"name": "namer", "n_quick": 5000, "n_thorough": 500000, "compare": True, "min_per_proc": 1000},
        ],
        "rule": "determ: generated queries of the supported fragment (see C14) and 12 templates with implicit column names, wildcards, USING, random(), each compiled, then compiled again after 0..3 other compilations and 0..4 rounds of direct namer calls in the same process, once more from a fresh thread, and from three threads running at the same time (each compiling the other queries of the case around it, in different orders): relations compared with ==, rendered text compared; rendered twice; rendered text compiled back (schema names, order and types compared, both generations executed on SQLite and rows compared) and rendered + compiled a second time; namer: sequences of 1..10 namer operations (new_name / new_id / name_from_content over 4 prefixes, Encoder::encode with 4 alphabets, lengths 0..6, boundary and random u64) after namer::reset(), compared with the Lean model; non-trivial = compiled",
        "trusted_base": COMMON_TRUST + ["tools/tr_namer.py (regular-expression inventory of namer call sites outside #[cfg(test)] modules)", "SQLite 3.40 + harness shims as executor", "std's DefaultHasher (SipHash with fixed keys) is a function of the content: assumed, observed through repeated compilation only"],
        "assumptions": ["threads: up to three concurrent threads per case; which interleavings of the global counter actually occur is up to the OS scheduler", "the audited counter-based call sites (C16.audited) are not reached from the SQL reader: backed by the determ stream, not proved"],
        "technique": "Lean 4 proof over a model of namer.rs / encoder.rs (content-derived names are independent of the counter state and of history; numbers from the counter strictly increase, so a counter-derived name changes on the second request) + generated inventory of /repo's naming call sites with a kernel-checked classification + model/implementation correspondence on namer operation sequences + repeated / interleaved / cross-thread compilation and render-compile fixpoint checks",
        "level_text": "Theorems (Props/C16.lean) for operation sequences of any length and any initial counter state: content_only_history_independent, counter_numbers_increasing, counter_name_changes, encode_length, encode_mod; compile_path_counter_sites is checked by the kernel over the inventory regenerated from /repo on every run. The model is compared with the real namer and encoder. That a whole compilation only uses content-derived names (and ordered containers) is observed by compiling each query repeatedly, interleaved and from another thread, not proved.",
        "level_note": "Trusted: Lean kernel; the inventory script. Modelled, not verified: hashing of node content (DefaultHasher), BTreeMap iteration order, thread-local function tables: these are exercised by the determ stream only.",
    },
    "C17": {
        "lean_modules": ["QrlewModel.Props.C17"],
        "translators": [{"module": "tr_dialects", "func": "gen_dialects"}],
        "streams": [
            {"name": "quote", "n_quick": 20000, "n_thorough": 1000000, "compare": True, "min_per_proc": 2000},
            {"name": "dialect", "n_quick": 4000, "n_thorough": 300000, "compare": False, "min_per_proc": 500},
            {"name": "dialectdp", "n_quick": 600, "n_thorough": 30000, "compare": False, "min_per_proc": 100},
        ],
        "rule": "dialectdp: relations returned by rewrite_with_differential_privacy for generated aggregation queries (grouped by public-valued keys or not, joins along the privacy-unit path), rendered by the eight translators: accepted by the dialect's parser, read back with the same names, order and types; quote: strings of length 0..6 over {a, b, space, ', \", \\, `, [, ], é, %, .} x {literal, identifier} x {PostgreSQL, SQLite, MySQL, MS SQL, BigQuery translators}: rendered text AND the value read back by the sqlparser dialect the library reads that target with, both compared with the Lean model instantiated from the generated dialect table; dialect: relations compiled from generated queries (see C14), a third of them with output columns renamed to awkward names (reserved words, spaces, dots, quotes of each style, brackets, leading digits, non-ASCII) x the eight translators: text accepted by sqlparser's parser for the dialect; read back by the library with the same dialect (7 dialects) with the same output names, order and types; SQLite text run on a plain SQLite connection (no user functions, no textual shims) with the rows of the reference execution; non-trivial = compiled",
        "trusted_base": COMMON_TRUST + ["tools/tr_dialects.py + `oracle dump dialects` (calls the real identifier() of each translator and the real sqlparser dialect methods)", "sqlparser 0.46 parsers stand for 'the dialect's parser' (no MySQL / MS SQL / BigQuery / Hive / Databricks / Redshift engine exists offline)", "SQLite 3.40 as the one offline engine"],
        "assumptions": ["relations come from the SQL reader over the harness tables, or from the DP rewriting of generated aggregation queries (stream dialectdp: parser acceptance and read-back only; their execution on SQLite is in the C01/C04/C05/C09 streams, with user-function shims)"],
        "technique": "Lean 4 proof over a model of sqlparser's quoting and of its tokenizer with and without backslash escapes, instantiated by a dialect table regenerated from the real translators on every run (every reading dialect accepts the quote its translator writes; identifiers and literals read back unchanged under a decidable guard; kernel-checked counterexample for backslash in MySQL/BigQuery literals) + model/implementation correspondence on written text and read-back value + render / parse / read-back / execute checks across the eight translators",
        "level_text": "Theorems (Props/C17.lean) for strings of any length and every row of the generated dialect table: writer_quote_readable, ident_round_trip, literal_round_trip, write_read, write_read_backslash, backslash_counterexample. The tokenizer model agrees with the five dialects exercised on every generated string (text and value read back). Function spellings, casts and LIMIT/TOP forms are not modelled: for them the check renders generated relations in all eight dialects, parses them with sqlparser, reads them back with the library and, for SQLite, executes them.",
        "level_note": "Trusted: Lean kernel; the dialect dump. Modelled, not verified: per-dialect function tables (checked by the dialect stream only); engines other than SQLite are represented by sqlparser's dialect parsers.",
    },
    "C18": {
        "lean_modules": ["QrlewModel.Props.C18"],
        "streams": [
            {"name": "arith", "n_quick": 20000, "n_thorough": 2000000, "compare": True, "min_per_proc": 2000},
            {"name": "total", "n_quick": 3000, "n_thorough": 300000, "compare": False, "min_per_proc": 300},
            {"name": "sqlx", "n_quick": 10000, "n_thorough": 1000000, "compare": False, "min_per_proc": 500},
            {"name": "c08x", "n_quick": 2000, "n_thorough": 100000, "compare": False, "min_per_proc": 500},
            {"name": "dialect", "n_quick": 2000, "n_thorough": 200000, "compare": False, "min_per_proc": 500},
            {"name": "rules", "n_quick": 600, "n_thorough": 60000, "compare": False, "min_per_proc": 200},
            {"name": "scope", "n_quick": 3000, "n_thorough": 300000, "compare": False, "min_per_proc": 500},
            {"name": "sizes", "n_quick": 3000, "n_thorough": 300000, "compare": True, "min_per_proc": 1000},
            {"name": "dialectdp", "n_quick": 300, "n_thorough": 30000, "compare": False, "min_per_proc": 100},
            {"name": "sdpartial", "n_quick": 400, "n_thorough": 20000, "compare": False, "min_per_proc": 100},
        ],
        "rule": "sdpartial: 8 queries x a synthetic-data mapping that omits one protected table: the DP entry point either refuses or returns a relation that reads no protected table without a noisy aggregation; dialectdp: relations returned by rewrite_with_differential_privacy for generated aggregation queries (grouped by public-valued keys or not, joins along the privacy-unit path), rendered by the eight translators: accepted by the dialect's parser, read back with the same names, order and types; arith: integer intervals with bounds from {i64::MIN, MIN+1, -2^62, -3037000500, -32, -2..2, 6, 3037000500, 2^62, MAX-1, MAX} and small random bounds, float intervals with bounds from {f64::MIN, -2.5, -1e-300, -0.0, 0.0, 1e-300, 0.25, 2.5, f64::MAX}: type images of divide / multiply / plus / minus and absolute_upper_bound, panic-or-hull compared with the Lean totality model; total: generated queries (arithmetic incl. division, abs, exp, ln, sqrt, pow, CASE, casts, greatest, coalesce; aggregates incl. var / stddev; GROUP BY; joins) over a table with 16 extreme column types (full i64 / f64, ranges ending at or containing 0, single points, i64::MIN, 130-value sets, two-point {MIN, MAX}, nullable) x compile, schema, render (2 dialects), privacy-unit rewriting (Soft, Hard), DP rewriting with budgets from {1, 0, 1e-300, 1e300, inf} x {1e-5, 0, 1, 1e-300}; LIMIT / OFFSET from {0, 1, 999, 1000, 1001, 5000, 10^18, i64::MAX} against a 1000-row table; sizes: Map / Join / Set builders with sizes from {0, 1, 3, 10, 1000} and LIMIT / OFFSET 0..12 (declared size against the Lean size model); sqlx / c08x / dialect / rules / scope: the compile, render, read-back and rewriting phases of the other properties' streams, each under catch_unwind with a per-case watchdog; non-trivial = compiled",
        "trusted_base": COMMON_TRUST + ["std::panic::catch_unwind + the harness panic hook (location, message) as the observer of panics; a watchdog thread turns a hang into a reported failure"],
        "assumptions": ["the supported fragment is represented by the generators of the streams listed; constructs outside them are not exercised", "overflow checks are on in the harness build (debug profile), as in a debug build of the library"],
        "technique": "Lean 4 proof over a model of the i64 / f64 corner arithmetic behind type images (saturating + - * are total, ordered and in range, so the interval assertion cannot fire on integers; the integer-division image panics iff the divisor interval contains 0; a NaN corner of the float-division image exists iff both intervals contain 0; abs-based bound panics iff a bound is i64::MIN, the repaired one is total) + model/implementation correspondence on panic-or-hull at the range edges + catch_unwind / watchdog over every public entry point on generated queries and extreme schemas",
        "level_text": "Theorems (Props/C18.lean) for all integers: clampI_range, clampI_mono, corners_ordered, mul_total, whole_total, divImage_panics_iff, fdiv_nan_corner_iff, absUpperOld_none_iff, absUpperNew_eq_old. The model's panic-or-hull verdict is compared with the real super_image at the edges of the ranges. Totality of the SQL reader, the renderer and the rewritings as a whole is not a theorem: it is observed under catch_unwind over generated queries, extreme schemas and degenerate budgets, with every known panic listed individually.",
        "level_note": "Trusted: Lean kernel; catch_unwind. Modelled, not verified: only the arithmetic core is modelled; the 160-odd todo!() / unwrap() sites of the SQL layer are covered by the generated-query streams only. Stack overflow and allocation failure abort the process (reported as process-abort by the runner), not as a Rust panic.",
    },
}

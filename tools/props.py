"""Per-property configuration of the check pipeline."""

COMMON_TRUST = [
    "correspondence harness (/verif/harness: generators, canonicalisers) and tools/run_check.py diff",
    "hand-written Lean model tied to the code only through the sampled correspondence streams",
]

PROPS = {
    "C11": {
        "lean_modules": ["QrlewModel.Props.C11"],
        "streams": [
            {"name": "intervals", "n_quick": 4000, "n_thorough": 200000},
            {"name": "dtype", "n_quick": 40000, "n_thorough": 2000000, "compare": False},
        ],
        "rule": "intervals: random operation histories (union/intersection with interval or set, hull) over rank-encoded i64/f64/String bounds, "
                "4 profiles (small grids for touching/nested endpoints, stride profiles forcing >=128 intervals); a case is distinct by its JSON and "
                "non-trivial unless tagged trivial (fewer than 2 ops)",
        "trusted_base": COMMON_TRUST + ["rank encoding: Intervals<B> is order-parametric (uses only <, <=, ==, clone)"],
        "assumptions": ["bounds are totally ordered (no NaN)"],
        "technique": "Lean 4 proof (induction over interval lists and operation histories) + model/implementation correspondence + law oracle",
        "level_text": "Theorems (Props/C11.lean) for all interval lists, bounds, capacities >= 2 and operation histories: representation invariant (sorted, disjoint, < capacity) is preserved and no point of the exact result is ever lost (incl. capacity collapses); exactness below capacity. The model is tied to intervals.rs by running both on generated histories (i64/f64/String) and to the DataType lattice laws by an implementation-side law oracle.",
        "level_note": "Trusted: Lean kernel; propext/Classical.choice/Quot.sound; the correspondence harness; rank encoding of bounds. Modelled, not verified: the Rust index arithmetic is modelled by structural recursion (tied by correspondence only); DataType-level laws are checked by the oracle sweep, see DESIGN.md.",
    },
    "C15": {
        "lean_modules": ["QrlewModel.Props.C15"],
        "streams": [
            {"name": "hier", "n_quick": 40000, "n_thorough": 2000000},
            {"name": "scope", "n_quick": 6000, "n_thorough": 200000, "compare": False},
        ],
        "rule": "hier: random path maps (0-8 entries over a 5-letter alphabet, keys derived from one another so that suffixes are shared/nested, permuted insertion order) x 6 lookups "
                "(exact keys, proper suffixes, longer paths, unrelated); non-trivial = at least 2 entries. scope: generated 2-3 way joins (ON/USING/NATURAL, aliases, self-joins) over tables "
                "with overlapping column names, one reference under test in SELECT/WHERE/GROUP BY/ORDER BY",
        "trusted_base": COMMON_TRUST + ["BTreeMap modelled as an association list with distinct keys (order-independence is theorem lookup_perm)"],
        "assumptions": ["only Hierarchy::get_key_value is modelled; the composition of column hierarchies in sql/relation.rs is checked by the implementation-side oracle only"],
        "technique": "Lean 4 proof (fold = unique-compatible-entry characterisation, order independence) + model/implementation correspondence + SQL-level ambiguity oracle",
        "level_text": "Theorems (Props/C15.lean) for every path map and lookup path: exact key wins; otherwise the single entry agreeing on all shared trailing components, none if several; the result is never one of several candidates and does not depend on entry order. Tied to hierarchy.rs by running Hierarchy::get_key_value and the model on generated maps; the query-level half (ambiguous unqualified columns across joins are refused, USING/NATURAL columns resolve) is an oracle on Relation::try_from.",
        "level_note": "Trusted: Lean kernel; the harness; sqlparser. Modelled, not verified: sql/relation.rs scope composition (oracle only). A panic on an ambiguous reference counts as a refusal for C15 and is reported under C18.",
    },
}

#!/bin/bash
# usage: try_seed.sh <ID> <patch.diff> [tier]   — apply a seeded change to /repo, run the check, undo it
ID=$1; P=$2; T=${3:-quick}
cd /repo || exit 2
git apply --3way "$P" 2>/dev/null || git apply "$P" || { echo "PATCH DOES NOT APPLY"; exit 3; }
cd /verif && ./check $ID --tier $T 2>&1 | grep -E "VIOLATION|BROKEN|done|stream|KNOWN" | cut -c1-220
cd /repo && git reset -q --hard HEAD && git status --short | head -3
cd /verif && git checkout -- lean/QrlewModel/Generated evidence 2>/dev/null; true

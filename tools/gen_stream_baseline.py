"""Measures, on the current tree, the share of non-trivial cases of every stream (quick size, seeds 1-3, the minimum is kept) and
writes tools/stream_baseline.json.  run_check.py reports a broken coverage obligation when a stream falls below half of it."""
import json, os, subprocess, sys
sys.path.insert(0, os.path.dirname(__file__))
import props
ROOT = os.path.dirname(os.path.dirname(os.path.abspath(__file__)))
ORACLE = os.path.join(ROOT, "harness", "target", "debug", "oracle")
streams = {}
for pid, p in props.PROPS.items():
    for s in p["streams"]:
        streams[s["name"]] = min(s.get("n_quick", 1000), 5000)
out = {}
for name, n in sorted(streams.items()):
    ratios = []
    for seed in (1, 2, 3):
        r = subprocess.run([ORACLE, "gen", name, "--seed", str(seed), "--n", str(n)], capture_output=True, text=True).stdout
        tot = nt = 0
        for l in r.splitlines():
            try:
                d = json.loads(l)
            except Exception:
                continue
            tot += 1
            if "trivial" not in d.get("tags", []):
                nt += 1
        if tot:
            ratios.append(nt / tot)
    if ratios:
        out[name] = round(min(ratios), 3)
json.dump(out, open(os.path.join(ROOT, "tools", "stream_baseline.json"), "w"), indent=1, sort_keys=True)
print(out)

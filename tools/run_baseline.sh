#!/bin/bash
# usage: run_baseline.sh <qrlew checkout dir>   — runs the 403 baseline tests (all are lib unit tests; the 74 tests that
# need PostgreSQL/docker are skipped by exact name) offline; prints "BASELINE OK" if all 403 pass.
DIR=${1:-/repo}
cd "$DIR" || exit 2
SK=$(mktemp)
python3 - > $SK <<'PY'
import json
b=json.load(open('/root/.vp/BASELINE.json'))
print(' '.join('--skip '+'::'.join(x.split('::')[1:]) for x in b['always_fail'] if x.startswith('qrlew::')))
PY
export CARGO_NET_OFFLINE=true
OUT=$(mktemp)
timeout 3000 cargo test --offline --lib -- --exact $(cat $SK) 2>&1 | grep -E "^test |test result" > $OUT
python3 - "$OUT" <<'PY'
import json,sys,re
b=json.load(open('/root/.vp/BASELINE.json'))
want=set('::'.join(x.split('::')[1:]) for x in b['stable_pass'])
ok=set(); failed=set()
for l in open(sys.argv[1]):
    m=re.match(r'test (\S+)(?: - should panic)? \.\.\. (\w+)',l)
    if m:
        (ok if m.group(2)=='ok' else failed).add(m.group(1))
missing=[w for w in want if w not in ok]
print('passed',len(ok),'failed',len(failed),'baseline tests:',len(want),'not passing:',len(missing))
for m in sorted(missing)[:30]: print('  NOT PASSING:',m)
print('BASELINE OK' if not missing else 'BASELINE BROKEN')
PY

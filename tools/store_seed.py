"""usage: store_seed.py <ID> <suffix> "<detected_by text>"  — copy /tmp/seed/out_<ID><suffix> into /verif/seeded/<ID><_suffix>/"""
import json, os, shutil, sys
pid, suf, det = sys.argv[1], sys.argv[2], sys.argv[3]
src = f"/tmp/seed/out_{pid}{suf}"; dst = f"/verif/seeded/{pid}" + (f"_{suf}" if suf else "")
os.makedirs(dst, exist_ok=True)
for f in ("patch.diff", "seeded_demo.rs"):
    shutil.copy(f"{src}/{f}", f"{dst}/{f}")
m = json.load(open(f"{src}/meta.json"))
m["property"] = pid
m["confirmed_by_me"] = "scratch worktree at /repo HEAD: demo passes without the patch and fails with it; tools/run_baseline.sh with the patch: 403/403 baseline tests pass (confirm script: demo with the sqlite feature, then tools/run_baseline.sh)"
m["detected_by"] = det
m["checked_with"] = f"tools/try_seed_iso.sh {pid} {dst}/patch.diff -> VIOLATION with a concrete replay"
json.dump(m, open(f"{dst}/meta.json", "w"), indent=1, ensure_ascii=False)
print("stored", dst)

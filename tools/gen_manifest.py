#!/usr/bin/env python3
"""Writes MANIFEST.json from tools/props.py (claimed checks) and properties.jsonl (ids)."""
import json, os, sys
ROOT = os.path.dirname(os.path.dirname(os.path.abspath(__file__)))
sys.path.insert(0, os.path.join(ROOT, "tools"))
from props import PROPS
ids = [json.loads(l)["id"] for l in open(os.path.join(ROOT, "properties.jsonl")) if l.strip()]
checks = []
na = []
for pid in ids:
    c = PROPS.get(pid)
    if c is None or not c.get("claimed", True):
        na.append({"property_id": pid, "reason": (c or {}).get("na_reason", "check not built yet in this session (planned in DESIGN.md §4); no claim is made")})
        continue
    checks.append({
        "property_id": pid,
        "quick_cmd": f"./check {pid} --tier quick",
        "thorough_cmd": f"./check {pid} --tier thorough",
        "evidence_file": f"/verif/evidence/{pid}.json",
        "replay_cmd_template": f"./check {pid} --replay {{path}}",
        "engine": "lean4-model+correspondence",
        "level_claimed": {"category": "proof", "text": c["level_text"], "design_ref": c.get("design_ref", f"DESIGN.md §4 {pid}")},
        "level_note": c["level_note"],
        "technique": c["technique"],
    })
m = {
    "version": 1,
    "setup_cmd": "./setup.sh",
    "hooks": {"guard": "qrlew_verif", "enable": "RUSTFLAGS=\"--cfg qrlew_verif\" (set in /verif/harness/.cargo/config.toml); no source hooks are needed so far: everything is reached through the public API",
              "baseline_off_cmd": "cd /repo && cargo test --workspace --no-fail-fast --offline", "source_commits": [], "add_only": True},
    "engines": [{"name": "lean4-model+correspondence", "path": "/verif/lean, /verif/harness, /verif/tools/run_check.py",
                 "serves_properties": [c["property_id"] for c in checks],
                 "kind_free_text": "Lean 4 theorems about an executable model (kernel-checked, #print axioms audited) + translators regenerating declarative tables + JSON-lines correspondence between the model driver (lean_exe) and a Rust harness linking /repo in-process + property-level oracle search + known-findings filter"}],
    "checks": checks,
    "not_applicable": na,
    "notes": "See DESIGN.md. A broken proof obligation / correspondence triggers a property-level search; VIOLATION lines end with no-failing-input-found when the search finds no concrete input.",
}
json.dump(m, open(os.path.join(ROOT, "MANIFEST.json"), "w"), indent=1)
print("checks:", [c["property_id"] for c in checks], "na:", len(na))

#!/bin/bash
# usage: try_seed_iso.sh <ID> <abs patch.diff> [tier]
# Tries a seeded change WITHOUT touching /repo: a scratch worktree of /repo's HEAD gets the patch, a scratch copy of the harness is
# built against it (own target directory, kept between calls for incremental builds), and ./check runs with VERIF_HARNESS_DIR /
# VERIF_REPO_DIR pointing at them.  Generated/*.lean and evidence/ are restored afterwards.
ID=$1; P=$2; T=${3:-quick}
SR=/tmp/seed_iso/repo; SH=/tmp/seed_iso/harness
mkdir -p /tmp/seed_iso
git -C /repo worktree remove --force $SR 2>/dev/null; git -C /repo worktree prune
git -C /repo worktree add -q --detach $SR HEAD || exit 2
cp /repo/Cargo.lock $SR/ 2>/dev/null; (cd $SR && git apply "$P") || { echo "PATCH DOES NOT APPLY"; git -C /repo worktree remove --force $SR; exit 3; }
mkdir -p $SH && rsync -a --delete --exclude target /verif/harness/ $SH/ && sed -i "s#path = \"/repo\"#path = \"$SR\"#" $SH/Cargo.toml
cd /verif && VERIF_HARNESS_DIR=$SH VERIF_REPO_DIR=$SR ./check $ID --tier $T 2>&1 | grep -E "VIOLATION|BROKEN|done|stream" | cut -c1-220
git -C /repo worktree remove --force $SR; git -C /repo worktree prune
cd /verif && git checkout -- lean/QrlewModel/Generated evidence 2>/dev/null; true

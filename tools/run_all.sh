#!/bin/bash
# usage: run_all.sh <tier> [seed]   — every claimed property, one line per property
T=${1:-quick}; export VERIF_SEED=${2:-1}
cd "$(dirname "$0")/.."
for id in C01 C02 C03 C04 C05 C06 C07 C08 C09 C10 C11 C12 C13 C14 C15 C16 C17 C18; do
  ./check $id --tier $T 2>&1 | grep -E "VIOLATION|BROKEN|done" | cut -c1-240
done

#!/usr/bin/env python3
"""Single entry point of the Qrlew verification machinery.

  ./check <ID> [--tier quick|thorough] [--replay FILE] [--no-build]

Pipeline (DESIGN.md §2.4): build harness from /repo's current tree -> translators ->
lake build of the property's theorem modules + driver -> axiom audit -> corpus replay +
correspondence streams (model vs implementation) + property-level oracle sweep ->
known-findings filter -> evidence -> exit code.
"""
import sys, os, json, subprocess, time, hashlib, re, collections, shutil, fnmatch

ROOT = os.path.dirname(os.path.dirname(os.path.abspath(__file__)))
sys.path.insert(0, os.path.join(ROOT, "tools"))
from props import PROPS  # noqa: E402

LEAN = os.path.join(ROOT, "lean")
# VERIF_HARNESS_DIR / VERIF_REPO_DIR: only for tools/try_seed_iso.sh (a scratch copy of the harness built against a patched scratch
# worktree, so that a seeded change can be tried while /repo itself stays untouched); the registered commands never set them
HARNESS = os.environ.get("VERIF_HARNESS_DIR", os.path.join(ROOT, "harness"))
REPO = os.environ.get("VERIF_REPO_DIR", "/repo")
WORK = os.path.join(ROOT, ".work")
ORACLE = os.path.join(HARNESS, "target", "debug", "oracle")
DRIVER = os.path.join(LEAN, ".lake", "build", "bin", "driver")
ALLOWED_AXIOMS = {"propext", "Classical.choice", "Quot.sound"}
FORBIDDEN = re.compile(r"\bsorry\b|\badmit\b|^axiom |native_decide|bv_decide|implemented_by|\bunsafe |maxHeartbeats 0")
NCPU = min(16, os.cpu_count() or 4)


def sh(cmd, cwd=None, timeout=None, env=None):
    e = dict(os.environ)
    e["CARGO_NET_OFFLINE"] = "true"
    if env:
        e.update(env)
    p = subprocess.run(cmd, shell=isinstance(cmd, str), cwd=cwd, stdout=subprocess.PIPE, stderr=subprocess.STDOUT,
                       timeout=timeout, env=e, text=True, errors="replace")
    return p.returncode, p.stdout


def log(*a):
    print(*a, flush=True)


# ----------------------------------------------------------------------------------------------
# build steps

def build_harness():
    """cargo build of the harness against /repo's current working tree (incremental)."""
    shutil.copyfile(os.path.join(REPO, "Cargo.lock"), os.path.join(HARNESS, "Cargo.lock"))
    t = time.time()
    rc, out = sh("cargo build --offline --message-format short 2>&1", cwd=HARNESS, timeout=3000)
    errs = [l for l in out.splitlines() if re.search(r"\berror\b", l)]
    return rc == 0, "\n".join(errs[:40]), time.time() - t


def run_translators(pid, cfg, broken):
    """Regenerate Generated/*.lean from the current tree.  Each translator is a harness `dump`
    subcommand or a python function; the generated file is data only."""
    for tr in cfg.get("translators", []):
        mod = __import__(tr["module"])
        try:
            info = getattr(mod, tr["func"])(ROOT)
            log(f"[{pid}] translator {tr['module']}.{tr['func']}: {info}")
        except Exception as ex:  # a translator that cannot read the code any more is a broken tie
            broken.append({"kind": "translator", "name": f"{tr['module']}.{tr['func']}", "detail": str(ex)[:2000]})


def lake_build(targets, clean_modules=None):
    if clean_modules:
        for m in clean_modules:
            rel = m.replace(".", "/")
            for ext in ("olean", "ilean", "trace", "hash", "olean.hash", "ilean.hash"):
                for base in ("lib/lean",):
                    f = os.path.join(LEAN, ".lake", "build", base, rel + "." + ext)
                    if os.path.exists(f):
                        os.remove(f)
    rc, out = sh(["lake", "build"] + targets, cwd=LEAN, timeout=3000)
    return rc == 0, out


def theorem_names(module):
    """(namespace-qualified) theorem names declared in a Props module."""
    path = os.path.join(LEAN, module.replace(".", "/") + ".lean")
    src = open(path).read()
    ns = re.search(r"^namespace\s+(\S+)", src, re.M)
    ns = ns.group(1) + "." if ns else ""
    code = re.sub(r"/-.*?-/", "", src, flags=re.S)   # doc / block comments are not declarations
    return [ns + m for m in re.findall(r"^theorem\s+([^\s:({\[]+)", code, re.M)], src


def forbidden_tokens(modules_src):
    hits = []
    for name, src in modules_src:
        # strip comments
        s = re.sub(r"/-.*?-/", "", src, flags=re.S)
        s = "\n".join(l.split("--")[0] for l in s.splitlines())
        for i, l in enumerate(s.splitlines()):
            if FORBIDDEN.search(l):
                hits.append(f"{name}:{i+1}: {l.strip()}")
    return hits


def lean_sources_of(modules):
    """Transitive closure of project-local imports of the given modules (for the token audit)."""
    seen, todo, out = set(), list(modules), []
    while todo:
        m = todo.pop()
        if m in seen:
            continue
        seen.add(m)
        path = os.path.join(LEAN, m.replace(".", "/") + ".lean")
        if not os.path.exists(path):
            continue
        src = open(path).read()
        out.append((m, src))
        for imp in re.findall(r"^import\s+(QrlewModel\.\S+)", src, re.M):
            todo.append(imp)
    return out


def axiom_audit(pid, modules):
    """#print axioms on every property theorem; returns (obligations, discharged, problems, per-theorem axioms)."""
    names = []
    for m in modules:
        n, _ = theorem_names(m)
        names += n
    os.makedirs(WORK, exist_ok=True)
    f = os.path.join(WORK, f"Audit_{pid}.lean")
    with open(f, "w") as fh:
        for m in modules:
            fh.write(f"import {m}\n")
        for n in names:
            fh.write(f"#print axioms {n}\n")
    rc, out = sh(["lake", "env", "lean", f], cwd=LEAN, timeout=1200)
    per = {}
    cur = None
    text = out.replace("\n  ", " ")
    for mm in re.finditer(r"'([^']+)' (depends on axioms: \[([^\]]*)\]|does not depend on any axioms)", text):
        ax = [a.strip() for a in (mm.group(3) or "").split(",") if a.strip()]
        per[mm.group(1)] = ax
    problems = []
    discharged = 0
    for n in names:
        if n not in per:
            problems.append(f"{n}: not checked (missing from #print axioms output)")
        elif set(per[n]) - ALLOWED_AXIOMS:
            problems.append(f"{n}: depends on non-allowed axioms {sorted(set(per[n]) - ALLOWED_AXIOMS)}")
        else:
            discharged += 1
    if rc != 0 and not problems:
        problems.append("axiom audit failed to run: " + out[-500:])
    return len(names), discharged, problems, per


# ----------------------------------------------------------------------------------------------
# streams

def _worker(pid, name, i, seed, per, tier, compare, results_slot):
    """One generator process, restarted after an abort / hang at the next case (the offending case is recorded)."""
    o = os.path.join(WORK, f"{pid}_{name}_{i}")
    open(o + ".impl", "w").close()
    skip = 0
    aborted = []
    restarts = 0
    while True:
        cmd = f"{ORACLE} gen {name} --seed {seed} --n {per} --tier {tier} --skip {skip} >> {o}.impl"
        p = subprocess.run(cmd, shell=True, stderr=subprocess.PIPE)
        if p.returncode == 0:
            break
        done = sum(1 for l in open(o + ".impl") if l.strip())
        bad = done + len(aborted)  # index of the case that killed the process
        # fetch the case text
        rc, out = sh(f"{ORACLE} gen {name} --seed {seed} --n {per} --tier {tier} --print-case {bad}")
        kind = "hang" if p.returncode == 97 else "abort"
        err = p.stderr.decode(errors="replace")[-300:]
        try:
            case = json.loads(out.strip().splitlines()[-1])["case"]
        except Exception:
            case = None
        aborted.append({"index": bad, "kind": kind, "case": case, "stderr": err})
        skip = bad + 1
        restarts += 1
        if restarts > 50 or skip >= per:
            break
    if compare:
        subprocess.run(f"{DRIVER} < {o}.impl > {o}.model", shell=True, stderr=subprocess.PIPE)
    results_slot.append((o, aborted))


def run_stream(pid, stream, n, seed, tier, corpus_lines):
    """Run harness gen (split over processes) | driver; returns list of (implLine, modelLine) dicts."""
    import threading
    os.makedirs(WORK, exist_ok=True)
    name = stream["name"]
    k = min(NCPU, max(1, n // max(1, stream.get("min_per_proc", 50)))) if n > 0 else 0
    per = (n + k - 1) // k if k else 0
    compare = stream.get("compare", True)
    t0 = time.time()
    slots = []
    threads = []
    crashed = []
    aborted_all = []
    if corpus_lines:
        cf = os.path.join(WORK, f"{pid}_{name}_corpus.in")
        open(cf, "w").write("\n".join(corpus_lines) + "\n")
        o = os.path.join(WORK, f"{pid}_{name}_corpus")
        cmd = f"{ORACLE} eval {name} < {cf} > {o}.impl"
        if compare:
            cmd += f"; {DRIVER} < {o}.impl > {o}.model"
        p = subprocess.run(cmd, shell=True, stderr=subprocess.PIPE)
        got = sum(1 for l in open(o + ".impl") if l.strip())
        if got < len(corpus_lines):
            aborted_all.append({"index": got, "kind": "abort", "case": json.loads(corpus_lines[got])["case"], "stderr": p.stderr.decode(errors="replace")[-300:]})
        slots.append((o, []))
    for i in range(k):
        s = (seed * 1000003 + i * 7919 + 1) & 0x7FFFFFFFFFFFFFFF
        th = threading.Thread(target=_worker, args=(pid, name, i, s, per, tier, compare, slots))
        th.start()
        threads.append(th)
    for th in threads:
        th.join()
    for _, aborted in slots:
        aborted_all += aborted
    dt = time.time() - t0

    def nonblank(path):
        if not os.path.exists(path):
            return
        with open(path) as fh:
            for l in fh:
                if l.strip():
                    yield l

    def results():
        # streamed: a thorough run has millions of cases, only counters and failures are kept by the caller
        for o, _ in slots:
            model = nonblank(o + ".model") if compare else None
            for j, l in enumerate(nonblank(o + ".impl")):
                ml = next(model, None) if model is not None else None
                try:
                    a = json.loads(l)
                except Exception:
                    crashed.append(f"{o}: bad impl line {j}")
                    continue
                b = None
                if compare:
                    if ml is not None:
                        try:
                            b = json.loads(ml)
                        except Exception:
                            b = {"model": None, "error": "bad model line"}
                    else:
                        b = {"model": None, "error": "driver produced no line"}
                yield (a, b)
        # a case that kills or hangs the process is a totality failure (property C18), reported under that key
        for ab in aborted_all:
            a = {"stream": name, "case": ab["case"], "impl": ab["kind"], "tags": ["process-" + ab["kind"]],
                 "oracle": [{"key": f"C18/{name}/process-{ab['kind']}", "what": f"the process was killed ({ab['kind']}) while evaluating this case: {ab['stderr'][-200:]}"}]}
            yield (a, None)
    return results(), crashed, dt


def load_stream_baseline():
    f = os.path.join(ROOT, "tools", "stream_baseline.json")
    try:
        return json.load(open(f))
    except Exception:
        return {}


STREAM_BASELINE = load_stream_baseline()


def load_known():
    f = os.path.join(ROOT, "known_findings.jsonl")
    out = []
    if os.path.exists(f):
        for l in open(f):
            l = l.strip()
            if l:
                out.append(json.loads(l))
    return out


def match_known(known, pid, key):
    for k in known:
        if k.get("property") == pid and k.get("status") == "known" and (k["key"] == key or fnmatch.fnmatchcase(key, k["key"])):
            return k
    return None


def corpus_for(pid, stream_name):
    d = os.path.join(ROOT, "corpus", pid)
    lines = []
    if os.path.isdir(d):
        for f in sorted(os.listdir(d)):
            if f.endswith(".json") or f.endswith(".jsonl"):
                for l in open(os.path.join(d, f)):
                    l = l.strip()
                    if not l:
                        continue
                    try:
                        j = json.loads(l)
                    except Exception:
                        continue
                    if j.get("stream") == stream_name:
                        lines.append(json.dumps({"stream": stream_name, "case": j["case"]}))
    return lines


# ----------------------------------------------------------------------------------------------

def write_replay(pid, name, obj):
    d = os.path.join(ROOT, "replays")
    os.makedirs(d, exist_ok=True)
    p = os.path.join(d, f"{pid}_{name}.json")
    json.dump(obj, open(p, "w"), indent=1, sort_keys=True)
    return p


def main():
    args = sys.argv[1:]
    if not args:
        print(__doc__)
        return 2
    pid = args[0]
    tier = os.environ.get("VERIF_TIER", "quick")
    replay = None
    nobuild = False
    i = 1
    while i < len(args):
        if args[i] == "--tier":
            tier = args[i + 1]; i += 2
        elif args[i] == "--replay":
            replay = args[i + 1]; i += 2
        elif args[i] == "--no-build":
            nobuild = True; i += 1
        else:
            i += 1
    if tier not in ("quick", "thorough"):
        tier = "quick"
    try:
        seed = int(os.environ.get("VERIF_SEED", "1"))
    except ValueError:
        seed = 1
    cfg = PROPS[pid]
    t0 = time.time()
    broken = []      # broken proof obligations / ties (not by themselves violations)
    violations = []  # (key, what, replay_obj)
    known_hits = collections.OrderedDict()
    known = load_known()

    # 1. harness
    if not nobuild:
        ok, errs, dt = build_harness()
        log(f"[{pid}] harness build: {'ok' if ok else 'FAILED'} ({dt:.0f}s)")
        if not ok:
            broken.append({"kind": "harness-build", "name": "harness does not build against /repo's current tree", "detail": errs})
    harness_ok = os.path.exists(ORACLE) and not any(b["kind"] == "harness-build" for b in broken)

    # 2. translators
    if harness_ok:
        run_translators(pid, cfg, broken)

    # 3. lean build
    modules = cfg["lean_modules"]
    clean = modules if tier == "thorough" else None
    ok, out = lake_build(modules + ["driver"], clean_modules=clean)
    lean_ok = ok
    log(f"[{pid}] lake build {' '.join(modules)} driver: {'ok' if ok else 'FAILED'}")
    if not ok:
        errl = [l for l in out.splitlines() if "error" in l][:30]
        # which theorem?  lean reports file:line; map to nearest preceding theorem name
        broken.append({"kind": "proof", "name": "lake build " + " ".join(modules), "detail": "\n".join(errl)})

    # 4. audit
    obligations = discharged = 0
    per_axioms = {}
    if lean_ok:
        obligations, discharged, problems, per_axioms = axiom_audit(pid, modules)
        hits = forbidden_tokens(lean_sources_of(modules))
        for h in hits:
            problems.append("forbidden token: " + h)
        if hits:
            discharged = 0
        for p in problems:
            broken.append({"kind": "audit", "name": p, "detail": ""})
        log(f"[{pid}] axiom audit: {discharged}/{obligations} theorems, axioms ⊆ {sorted(ALLOWED_AXIOMS)}" + ("" if not problems else f"; problems: {problems[:3]}"))
        if tier == "thorough" and cfg.get("leanchecker", True):
            for m in modules:
                rc, o = sh(["lake", "env", "leanchecker", m], cwd=LEAN, timeout=3000)
                log(f"[{pid}] leanchecker {m}: rc={rc}")
                if rc != 0:
                    broken.append({"kind": "leanchecker", "name": m, "detail": o[-1000:]})
    else:
        # count obligations anyway
        for m in modules:
            try:
                n, _ = theorem_names(m)
                obligations += len(n)
            except Exception:
                pass
    driver_ok = os.path.exists(DRIVER)

    # 5. streams
    evaluations = 0
    nontrivial = set()
    tags = collections.Counter()
    samples = []
    mismatches = []
    stream_stats = {}
    other_keys = collections.Counter()
    if harness_ok:
        streams = cfg.get("streams", [])
        if replay:
            rj = json.load(open(replay))
            cases = rj if isinstance(rj, list) else rj.get("cases", [rj])
            streams = []
            by = collections.defaultdict(list)
            for c in cases:
                if "stream" in c and "case" in c:
                    by[c["stream"]].append(json.dumps({"stream": c["stream"], "case": c["case"]}))
            for s in cfg.get("streams", []):
                if s["name"] in by:
                    s2 = dict(s); s2["n_quick"] = 0; s2["n_thorough"] = 0; s2["_corpus"] = by[s["name"]]
                    streams.append(s2)
        for s in streams:
            n = s["n_thorough"] if tier == "thorough" else s["n_quick"]
            corpus = s.get("_corpus") if replay else corpus_for(pid, s["name"])
            s = dict(s)
            s["compare"] = s.get("compare", True) and driver_ok
            if n == 0 and not corpus:
                continue
            if n == 0:
                # corpus only
                res, crashed, dt = run_stream(pid, dict(s, min_per_proc=10**9), 0, seed, tier, corpus)
            else:
                res, crashed, dt = run_stream(pid, s, n, seed, tier, corpus)
            st = collections.Counter()
            nt_stream = 0
            for a, b in res:
                evaluations += 1
                st["cases"] += 1
                h = hashlib.sha1(json.dumps(a["case"], sort_keys=True).encode()).hexdigest()
                tg = a.get("tags", [])
                tags.update(f"{s['name']}:{t}" for t in tg)
                if "trivial" not in tg:
                    nontrivial.add(h)
                    nt_stream += 1
                if len(samples) < 3 and "trivial" not in tg and len(json.dumps(a["case"])) < 1500:
                    samples.append({"stream": s["name"], "case": a["case"], "impl": a["impl"]})
                for o in a.get("oracle", []):
                    if not o["key"].startswith(pid + "/"):
                        st["other-property-findings"] += 1
                        other_keys[o["key"]] += 1
                        continue
                    kf = match_known(known, pid, o["key"])
                    if kf:
                        if kf["key"] not in known_hits:
                            known_hits[kf["key"]] = (kf, a, o)
                        st["known-finding-cases"] += 1
                    else:
                        st["oracle-failures"] += 1
                        violations.append((o["key"], o["what"], {"stream": s["name"], "case": a["case"], "impl": a["impl"], "oracle": o,
                                                                  "model": (b or {}).get("model")}))
                if s["compare"] and b is not None and a["impl"] is not None and "model" in b:
                    if b.get("model") != a["impl"]:
                        st["model-mismatch"] += 1
                        mismatches.append({"stream": s["name"], "case": a["case"], "impl": a["impl"], "model": b.get("model"), "model_error": b.get("error")})
                    else:
                        st["model-agree"] += 1
            for c in crashed:
                broken.append({"kind": "harness-crash", "name": f"stream {s['name']}", "detail": c})
            # coverage guard: a stream whose cases have mostly become trivial (refused, skipped) no longer checks anything
            base = STREAM_BASELINE.get(s["name"])
            if base is not None and not replay and st["cases"] >= 200:
                ratio = nt_stream / st["cases"]
                st["nontrivial-ratio"] = round(ratio, 3)
                if ratio < 0.5 * base:
                    broken.append({"kind": "coverage", "name": f"stream {s['name']}: only {ratio:.0%} of the cases are non-trivial (the compiler accepts / the harness can judge them), {base:.0%} on the reference tree",
                                   "detail": {"stream": s["name"], "nontrivial": nt_stream, "cases": st["cases"], "reference_ratio": base}})
            stream_stats[s["name"]] = dict(st, wall_s=round(dt, 1))
            log(f"[{pid}] stream {s['name']}: {dict(st)} in {dt:.0f}s")
    # mismatches: a correspondence break
    if mismatches:
        mismatches.sort(key=lambda m: len(json.dumps(m["case"])))
        broken.append({"kind": "correspondence", "name": f"stream {mismatches[0]['stream']}: model and implementation disagree on {len(mismatches)} case(s)",
                       "detail": mismatches[0]})

    # 6. verdict
    for key, (kf, a, o) in known_hits.items():
        log(f"KNOWN-FINDING: property={pid} {kf['key']}: {kf['what']}")
    # known findings that did not reproduce (informational)
    for k in known:
        if k.get("property") == pid and k.get("status") == "known" and k["key"] not in known_hits and not replay:
            log(f"[{pid}] note: known finding {k['key']} was not reproduced by this run")
    rc = 0
    seen = set()
    if violations:
        violations.sort(key=lambda v: len(json.dumps(v[2])))
        for key, what, obj in violations:
            if key in seen:
                continue
            seen.add(key)
            obj = dict(obj, property=pid, key=key, what=what, broken=broken, seed=seed, tier=tier)
            p = write_replay(pid, re.sub(r"[^A-Za-z0-9_.-]+", "_", key)[:80], obj)
            log(f"VIOLATION property={pid} replay={p}")
        rc = 1
    elif broken:
        obj = {"property": pid, "broken": broken, "seed": seed, "tier": tier,
               "note": "a proof obligation, translator or correspondence no longer checks; the property-level search found no failing input"}
        if mismatches:
            obj["stream"] = mismatches[0]["stream"]; obj["case"] = mismatches[0]["case"]
        p = write_replay(pid, "broken_obligation", obj)
        for b in broken[:5]:
            log(f"[{pid}] BROKEN {b['kind']}: {b['name']}")
        log(f"VIOLATION property={pid} replay={p} no-failing-input-found")
        rc = 1

    # 7. evidence
    wall = time.time() - t0
    ev = {
        "property_id": pid, "tier": tier, "seed": seed, "level": cfg.get("level", "proof"),
        "coverage": {
            "obligations": max(obligations, 1), "discharged": discharged,
            "checker_cmd": f"cd /verif/lean && lake build {' '.join(modules)} && lake env lean .work/Audit_{pid}.lean  (#print axioms on every theorem of the Props modules)"
                           + (" && lake env leanchecker <module>" if tier == "thorough" else ""),
            "trusted_base": cfg.get("trusted_base", []) + ["Lean 4.33 kernel", "axioms: " + ", ".join(sorted({a for v in per_axioms.values() for a in v}) or ["none"])],
            "theorems": {k: v for k, v in per_axioms.items()},
            "evaluations": evaluations, "distinct_nontrivial": len(nontrivial),
            "rule": cfg.get("rule", ""), "samples": samples or [{"note": "no stream cases in this run"}],
            "streams": stream_stats, "distribution": dict(tags.most_common(60)),
            "disagreements_model_vs_impl": len(mismatches),
            "known_findings_reproduced": list(known_hits.keys()),
            "findings_of_other_properties_seen": dict(other_keys.most_common(20)),
            "broken_obligations": [b["kind"] + ": " + b["name"] for b in broken],
        },
        "assumptions": cfg.get("assumptions", []),
        "wall_s": round(wall, 1), "violations": len(seen) if violations else (1 if broken else 0),
    }
    if not replay:
        os.makedirs(os.path.join(ROOT, "evidence"), exist_ok=True)
        json.dump(ev, open(os.path.join(ROOT, "evidence", f"{pid}.json"), "w"), indent=1)
    log(f"[{pid}] done tier={tier} seed={seed} wall={wall:.0f}s rc={rc}")
    return rc


if __name__ == "__main__":
    sys.exit(main())

#!/bin/sh
# Build the framework from files on disk only (offline): Lean model + theorems + driver, Rust harness.
set -e
cd "$(dirname "$0")"
export CARGO_NET_OFFLINE=true
(cd lean && lake build QrlewModel driver)
cp /repo/Cargo.lock harness/Cargo.lock
(cd harness && cargo build --offline 2>&1 | tail -3)
echo setup-done
